#!/usr/bin/env python3
"""Writes the prompt for a builder sub-agent that strengthens ONE property check after a seeding round.

usage: tools/make_builder_prompt.py <outdir> <CXX> <seeded-dir-name> [<seeded-dir-name> ...]

The builder works in /verif (it may read everything there) but must not touch /repo, the runner, MANIFEST, DESIGN or other checks.
"""
import sys, os, json

ROOT = os.path.dirname(os.path.dirname(os.path.abspath(__file__)))
out, pid, names = sys.argv[1], sys.argv[2], sys.argv[3:]
os.makedirs(out, exist_ok=True)
prop = None
for l in open(os.path.join(ROOT, "properties.jsonl")):
    d = json.loads(l)
    if d["id"] == pid:
        prop = d
items = []
for n in names:
    m = json.load(open(os.path.join(ROOT, "seeded", n, "meta.json")))
    items.append(f"  - seeded/{n}/ (patch.diff, demo.py, meta.json): {m.get('summary')}\n      needs: {m.get('needs')}\n")
low = pid.lower()
if items:
    INTRO = ("An independent adversary (who saw only the property text) produced realistic library changes that BREAK the property while the "
             "library's\nown test suite still passes. The registered quick check MISSED these ones:\n\n" + "".join(items))
else:
    INTRO = """In the latest round of independently seeded breaking changes this property's check missed none, but the checks of OTHER properties
were blind to the following classes. Audit props/%s.py against each of them, for every public function / option the statement is about
(read the anchored sources for their signatures and docstrings), and add what is missing. In the numbered steps below read "each missed
change" as "each blind spot you find"; to convince yourself that a new class has teeth, write 2-4 small scratch mutants of the library
(in a scratch copy, see tools/mutant_run.sh; keep the ones that teach something as mutants/%s/m<k>_<slug>.diff) and check they are caught.

  a. HOW THE CALLER SPELLS AN ARGUMENT: documented parameters passed by position in the documented order or by keyword (a change that
     reorders or inserts a parameter only breaks positional callers); an optional parameter passed explicitly with its documented default
     (e.g. `x=None`); flags as bool / numpy.bool_ / 0-1 (`is True` tests); scalars as Python or numpy numbers; ids as int / numpy ints.
  b. COLLECTION FORMS: list / tuple / set / range / numpy array / dict view / deque and ONE-SHOT iterators or generators wherever the
     code accepts "an iterable" (an argument that is iterated twice is empty the second time) - only where the docstring / code shows
     that arbitrary iterables are meant to be accepted; and the caller's container mutated after the call.
  c. FALSY BUT LEGITIMATE VALUES: zero weights, 0 / 0.0 / False / "" values, id 0, an empty-but-valid collection, a sparse attribute with
     a default and no stored entry, caller-supplied dicts containing zeros (`d.get(k) or default`, `x or default`, `if x:` patterns).
  d. MINIMAL AND LAST: empty input, one element, exactly two; the LAST element / last iteration; element id 0 in a special role (face 0 on
     the border, vertex 0 as start); negative ids only where the unchanged library documents or consistently supports them.
  e. THE SAME OBJECT USED TWICE: run() / the call repeated on the same worker object before any result is read; results read, then the call
     repeated; attributes cached on the mesh by OTHER library calls beforehand (corner angles, cotangents, areas, normals, lengths, border
     flags, a connection) combined with inputs on which the cached and the recomputed route could differ.
  f. ILL-CONDITIONED ENDS: angles within 1e-6..1e-12 of 0 / pi, thin triangles, arguments of magnitude 1e6..1e12 - each only with an oracle
     that is itself accurate there (exact arithmetic on integer / dyadic inputs) and a tolerance a correct implementation meets.
  g. SIZE-DEPENDENT LOOPS: one or two cases per quick run beyond 2**16 / 10**5 elements on the path the function walks (silent iteration
     caps), kept to a few seconds.
""" % (low, pid)
txt = f"""You are strengthening ONE property-based check of a verification framework that already exists in /verif, for the Python library
in /repo (`mouette`, geometry processing). Property {pid}:

  Title: {prop['title']}
  Statement: {prop['statement']}
  Quantified over: {prop['quantifier']['text']}

The check is /verif/props/{low}.py (run: `cd /verif && ./check.py {pid} quick`). Conventions: read /verif/tools/AGENT_BRIEF.md sections
"Conventions" (SubCheck, ctx.check / ctx.call / ctx.label, JSON-realised cases, tolerances) first, then the module itself (its RULE and
ASSUMPTIONS strings state what it generates and assumes) and the anchored library sources under /repo/mouette.

{INTRO}
Your task:
1. For each missed change read patch.diff / demo.py / meta.json and decide whether it really violates the property AS STATED for an input
   inside the stated domain (statement + quantifier + the library's docstrings / in-repo callers). If one is arguably outside the domain
   (the statement promises nothing there), say so in your report and do not chase it.
2. For each one that is inside: work out the GENERAL class of inputs / options / call histories that the check does not exercise (not the
   one example of the demo) and add that class to the generators and oracles of props/{low}.py - e.g. a new value of an option dimension,
   a new input form, a new step in the generated history, a new oracle over something the check ignores. Never special-case the patch,
   never look at library internals the patch touched to detect it; the check must stay a statement of the property over generated inputs.
   Think about what ELSE is in the same blind spot (neighbouring options, sibling functions, the same trick on other arguments) and cover
   that too. Label the new classes (ctx.label) so that the evidence shows how often they occur; make them frequent enough in the QUICK
   tier that the change is caught at VERIF_SEED=1 and most other seeds.
3. Soundness comes first: a check that raises an alarm on a library where the property holds is worse than a missed change. Every new
   oracle must be grounded in the statement, a docstring or the behaviour in-repo callers rely on; where several answers are valid check a
   validity predicate; every float comparison needs a tolerance relative to the data; inputs must respect the documented / implicit
   preconditions. If the strengthened check reports a violation on the UNCHANGED /repo, analyse it: if the library really breaks the
   property (show the input), do NOT edit /repo - write a minimal patch a maintainer would accept to /verif/scratch/fixes/{pid}-r6-<slug>.diff
   (unified diff, -p1, paths a/mouette/...) with the failing case next to it, verify it in a scratch copy, and either keep the new
   oracle switched off behind a module constant (explain) or add a narrow matcher to MATCHERS (see the brief); if your oracle over-reached, fix the oracle.
4. Verify, and report the outcome of each of these:
   - `./check.py {pid} quick` on the unchanged tree exits 0 for VERIF_SEED=1,2,3,4 (run as `VERIF_SEED=2 ./check.py {pid} quick`).
   - `tools/seed_recheck.sh {pid}` : every stored change of this property (old and new) is reported `caught` (old ones must not regress).
   - `tools/benign_recheck.sh {pid}` : the stored property-PRESERVING changes must all stay quiet (exit=0, no VIOLATION) - they probe your
     new oracles for over-reach.
   - `./check.py {pid} thorough --shards 8 --scale 0.1` exits 0.
   - quick-tier wall time: keep it within roughly 1.3x of what it is now on an idle machine (the machine is shared and loaded right now -
     compare evaluations and measure relative to a run of the old module under the same load rather than absolute seconds).
5. Update RULE / ASSUMPTIONS in the module so that they state the new classes. Do not edit vlib/runner.py, check.py, MANIFEST.json,
   DESIGN.md, known_findings.json, tools/, seeded/ or other props/*.py; small additive helpers in vlib/gen_*.py / topo.py / build.py only
   if really needed (say so). Never modify /repo. Do not `git commit`. Scratch files under /tmp/{pid}b/ (remove them when done). Other
   builders work on other properties in the same /verif at the same time.

Final message (concise): per missed change - inside/outside the domain, what class you added, whether it is caught now and with which
signature; the outcome of each verification step; anything found on the unchanged tree; what you did not manage.
"""
path = os.path.join(out, pid + "_builder.txt")
open(path, "w").write(txt)
print(path, len(txt))
