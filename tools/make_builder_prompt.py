#!/usr/bin/env python3
"""Writes the prompt for a builder sub-agent that strengthens ONE property check after a seeding round.

usage: tools/make_builder_prompt.py <outdir> <CXX> <seeded-dir-name> [<seeded-dir-name> ...]

The builder works in /verif (it may read everything there) but must not touch /repo, the runner, MANIFEST, DESIGN or other checks.
"""
import sys, os, json

ROOT = os.path.dirname(os.path.dirname(os.path.abspath(__file__)))
out, pid, names = sys.argv[1], sys.argv[2], sys.argv[3:]
os.makedirs(out, exist_ok=True)
prop = None
for l in open(os.path.join(ROOT, "properties.jsonl")):
    d = json.loads(l)
    if d["id"] == pid:
        prop = d
items = []
for n in names:
    m = json.load(open(os.path.join(ROOT, "seeded", n, "meta.json")))
    items.append(f"  - seeded/{n}/ (patch.diff, demo.py, meta.json): {m.get('summary')}\n      needs: {m.get('needs')}\n")
low = pid.lower()
txt = f"""You are strengthening ONE property-based check of a verification framework that already exists in /verif, for the Python library
in /repo (`mouette`, geometry processing). Property {pid}:

  Title: {prop['title']}
  Statement: {prop['statement']}
  Quantified over: {prop['quantifier']['text']}

The check is /verif/props/{low}.py (run: `cd /verif && ./check.py {pid} quick`). Conventions: read /verif/tools/AGENT_BRIEF.md sections
"Conventions" (SubCheck, ctx.check / ctx.call / ctx.label, JSON-realised cases, tolerances) first, then the module itself (its RULE and
ASSUMPTIONS strings state what it generates and assumes) and the anchored library sources under /repo/mouette.

An independent adversary (who saw only the property text) produced realistic library changes that BREAK the property while the library's
own test suite still passes. The registered quick check MISSED these ones:

{''.join(items)}
Your task:
1. For each missed change read patch.diff / demo.py / meta.json and decide whether it really violates the property AS STATED for an input
   inside the stated domain (statement + quantifier + the library's docstrings / in-repo callers). If one is arguably outside the domain
   (the statement promises nothing there), say so in your report and do not chase it.
2. For each one that is inside: work out the GENERAL class of inputs / options / call histories that the check does not exercise (not the
   one example of the demo) and add that class to the generators and oracles of props/{low}.py - e.g. a new value of an option dimension,
   a new input form, a new step in the generated history, a new oracle over something the check ignores. Never special-case the patch,
   never look at library internals the patch touched to detect it; the check must stay a statement of the property over generated inputs.
   Think about what ELSE is in the same blind spot (neighbouring options, sibling functions, the same trick on other arguments) and cover
   that too. Label the new classes (ctx.label) so that the evidence shows how often they occur; make them frequent enough in the QUICK
   tier that the change is caught at VERIF_SEED=1 and most other seeds.
3. Soundness comes first: a check that raises an alarm on a library where the property holds is worse than a missed change. Every new
   oracle must be grounded in the statement, a docstring or the behaviour in-repo callers rely on; where several answers are valid check a
   validity predicate; every float comparison needs a tolerance relative to the data; inputs must respect the documented / implicit
   preconditions. If the strengthened check reports a violation on the UNCHANGED /repo, analyse it: if the library really breaks the
   property (show the input), do NOT edit /repo - write a minimal patch a maintainer would accept to /verif/scratch/fixes/{pid}-r6-<slug>.diff
   (unified diff, -p1, paths a/mouette/...) with the failing case next to it, verify it in a scratch copy, and either keep the new
   oracle switched off behind a module constant (explain) or add a narrow matcher to MATCHERS (see the brief); if your oracle over-reached, fix the oracle.
4. Verify, and report the outcome of each of these:
   - `./check.py {pid} quick` on the unchanged tree exits 0 for VERIF_SEED=1,2,3,4 (run as `VERIF_SEED=2 ./check.py {pid} quick`).
   - `tools/seed_recheck.sh {pid}` : every stored change of this property (old and new) is reported `caught` (old ones must not regress).
   - `tools/benign_recheck.sh {pid}` : the stored property-PRESERVING changes must all stay quiet (exit=0, no VIOLATION) - they probe your
     new oracles for over-reach.
   - `./check.py {pid} thorough --shards 8 --scale 0.1` exits 0.
   - quick-tier wall time: keep it within roughly 1.3x of what it is now on an idle machine (the machine is shared and loaded right now -
     compare evaluations and measure relative to a run of the old module under the same load rather than absolute seconds).
5. Update RULE / ASSUMPTIONS in the module so that they state the new classes. Do not edit vlib/runner.py, check.py, MANIFEST.json,
   DESIGN.md, known_findings.json, tools/, seeded/ or other props/*.py; small additive helpers in vlib/gen_*.py / topo.py / build.py only
   if really needed (say so). Never modify /repo. Do not `git commit`. Scratch files under /tmp/{pid}b/ (remove them when done). Other
   builders work on other properties in the same /verif at the same time.

Final message (concise): per missed change - inside/outside the domain, what class you added, whether it is caught now and with which
signature; the outcome of each verification step; anything found on the unchanged tree; what you did not manage.
"""
path = os.path.join(out, pid + "_builder.txt")
open(path, "w").write(txt)
print(path, len(txt))
