#!/bin/sh
# usage: tools/store_round.sh <round dir, e.g. /tmp/seed6> <tag, e.g. r6> <CXX> [k ...]
# verifies and stores every change of one property of a seeding round as seeded/CXX-<tag>-k (see seed_store.sh)
R=$1; TAG=$2; P=$3; shift 3; KS=${*:-1 2 3}
cd "$(dirname "$0")/.."
for k in $KS; do
  [ -f "$R/${P}_out/change$k.diff" ] || { echo "no change $k for $P"; continue; }
  SEED_NAME=$P-$TAG-$k tools/seed_store.sh $P "$R/${P}_out" $k "round ${TAG#r}" 2>&1 | grep -E "^==|demo_on|tests_missing|VIOLATION|signature|stored|NOT STORED|quick:" | cut -c1-330
done
