#!/bin/sh
# multi-seed quick sweep on the snapshot
for s in 31 32 33; do for p in C01 C02 C03 C04 C05 C06 C07 C08 C09 C10 C11 C12 C13 C14 C15 C16 C17 C18 C19 C20; do VERIF_SEED=$s ./check.py $p quick 2>&1 | grep -E "VIOLATION|sub_check=|HARNESS|quick:" | cut -c1-400; done; done
