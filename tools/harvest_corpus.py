#!/venv/bin/python
"""Builds the saved-input corpus regress/<CXX>/ from the stored breaking changes of a property.

usage: tools/harvest_corpus.py <CXX> [-j N] [--sources seeded|mutants|fixes|all] [--only-missing]
       tools/harvest_corpus.py --ingest <CXX> <origin-name> <dir with replay files>     (used by tools/seed_recheck.sh)

For every stored change (seeded/CXX-*/patch.diff, mutants/CXX/*.diff, and the reverse of every `fix:` commit listed for the property in
known_findings.json) the patch is applied to a scratch copy of /repo's package, the registered quick check (search only, corpus off) is run
against it, and the shrunk failing cases it writes (at most 2 per change, smallest first) are kept IF they pass on the unchanged /repo
(replayed there; a case that fails on /repo is a finding or a false alarm, never corpus material). The corpus holds inputs only; the
oracles stay those of the check.
"""
import sys, os, json, glob, subprocess, tempfile, shutil, hashlib
from concurrent.futures import ThreadPoolExecutor

ROOT = os.path.dirname(os.path.dirname(os.path.abspath(__file__)))
PY = "/venv/bin/python"


def sources(pid, which):
    out = []
    if which in ("seeded", "all"):
        for d in sorted(glob.glob(os.path.join(ROOT, "seeded", pid + "-*"))):
            if os.path.exists(os.path.join(d, "patch.diff")):
                out.append(("seed-" + os.path.basename(d), os.path.join(d, "patch.diff"), False))
    if which in ("mutants", "all"):
        for f in sorted(glob.glob(os.path.join(ROOT, "mutants", pid, "*.diff"))):
            out.append(("mutant-" + os.path.basename(f)[:-5], f, False))
    if which in ("fixes", "all"):
        kf = json.load(open(os.path.join(ROOT, "known_findings.json")))["findings"]
        for e in kf:
            if e.get("property") == pid and e.get("status") == "fixed" and e.get("commit"):
                out.append(("fixed-" + e["id"] + "-" + e["commit"][:7], e["commit"], True))
    return out


def ingest(pid, name, reps, keep=2):
    """keeps at most `keep` of the replay files `reps` (smallest first) as regress/<pid>/<name>-<hash>.json, each only if it holds on /repo"""
    have = glob.glob(os.path.join(ROOT, "regress", pid, name + "-*.json"))
    kept = [os.path.basename(f) for f in have]
    for rp in sorted(reps, key=os.path.getsize):
        if len(kept) >= keep:
            break
        if os.path.getsize(rp) > 400_000:
            continue
        ent = json.load(open(rp))
        if ent.get("property") != pid:
            continue
        ent2 = {"property": pid, "sub_check": ent["sub_check"], "case": ent["case"], "tier": "quick",
                "origin": name, "signature_on_changed_library": ent["signature"]}
        h = hashlib.sha1(json.dumps(ent2["case"], sort_keys=True).encode()).hexdigest()[:8]
        dst = os.path.join(ROOT, "regress", pid, f"{name}-{h}.json")
        if os.path.basename(dst) in kept:
            continue
        # must hold on the unchanged tree
        env2 = dict(os.environ, VERIF_NO_CORPUS="1")
        env2.pop("MOUETTE_REPO", None); env2.pop("VERIF_OUT_DIR", None)
        rr = subprocess.run([PY, "check.py", "--replay", os.path.abspath(rp)], cwd=ROOT, env=env2, capture_output=True, text=True)
        if rr.returncode != 0 or "property held" not in rr.stdout:
            continue
        os.makedirs(os.path.dirname(dst), exist_ok=True)
        json.dump(ent2, open(dst, "w"), sort_keys=True)
        kept.append(os.path.basename(dst))
    return kept


def harvest(pid, name, src, is_commit, keep=2):
    D = tempfile.mkdtemp(prefix="hv.")
    try:
        shutil.copytree("/repo/mouette", os.path.join(D, "mouette"))
        if is_commit:
            diff = subprocess.run(["git", "-C", "/repo", "diff", src + "^", src, "--", "mouette"], capture_output=True, text=True).stdout
            r = subprocess.run(["patch", "-s", "-R", "-p1"], input=diff, text=True, cwd=D, capture_output=True)
        else:
            r = subprocess.run(["patch", "-s", "-p1", "-i", src], cwd=D, capture_output=True, text=True)
        if r.returncode != 0:
            return name, "patch-failed", []
        reps = []
        for vs in ("1", "2", "3", "4"):       # a change the search only meets at some seeds is exactly what the corpus is for
            env = dict(os.environ, MOUETTE_REPO=D, VERIF_OUT_DIR=os.path.join(D, "out"), VERIF_NO_CORPUS="1", VERIF_SEED=vs)
            subprocess.run(["nice", "-n", "10", PY, "check.py", pid, "quick"], cwd=ROOT, env=env, capture_output=True, text=True)
            reps = sorted(glob.glob(os.path.join(D, "out", "replays", "*.json")), key=os.path.getsize)
            if reps:
                break
        kept = ingest(pid, name, reps, keep)
        return name, ("no-violation" if not reps else "ok"), kept
    finally:
        shutil.rmtree(D, ignore_errors=True)


def main():
    a = sys.argv[1:]
    if a[0] == "--ingest":          # --ingest CXX <origin-name> <dir with replay files>
        print("corpus:", ingest(a[1], a[2], glob.glob(os.path.join(a[3], "*.json"))))
        return
    pid = a[0]
    j = int(a[a.index("-j") + 1]) if "-j" in a else 2
    which = a[a.index("--sources") + 1] if "--sources" in a else "all"
    srcs = sources(pid, which)
    if "--only-missing" in a:
        have = set(os.path.basename(f) for f in glob.glob(os.path.join(ROOT, "regress", pid, "*.json")))
        srcs = [s for s in srcs if not any(h.startswith(s[0] + "-") for h in have)]
    with ThreadPoolExecutor(max_workers=j) as ex:
        for name, status, kept in ex.map(lambda s: harvest(pid, *s), srcs):
            print(f"{name}: {status} kept={kept}", flush=True)


if __name__ == "__main__":
    main()
