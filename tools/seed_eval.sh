#!/bin/sh
# usage: tools/seed_eval.sh <CXX> <dir-with-changeK.diff/demoK.py/metaK.json> <K> [tier]
# The saved-input corpus is switched off by default here (VERIF_NO_CORPUS=1): the point is what the SEARCH finds; VERIF_NO_CORPUS=0 to include it.
# Verifies a seeded change (demo passes on /repo, fails on patched copy, baseline tests still pass) and runs the registered check against it.
P=$1; SRC=$2; K=$3; T=${4:-quick}
D=$(mktemp -d /tmp/seval.XXXXXX)
cp -r /repo/mouette "$D/mouette"; cp -r /repo/tests "$D/tests"
( cd "$D" && patch -s -p1 < "$SRC/change$K.diff" ) || { echo "PATCH-FAILED"; rm -rf "$D"; exit 3; }
cd "$(dirname "$0")/.."
PYTHONPATH=/repo /venv/bin/python -W ignore "$SRC/demo$K.py" >/dev/null 2>&1; a=$?
PYTHONPATH="$D" /venv/bin/python -W ignore "$SRC/demo$K.py" >/dev/null 2>&1; b=$?
echo "demo_on_repo=$a demo_on_patched=$b"
if [ "$SKIP_TESTS" != "1" ]; then
  X=$(mktemp /tmp/junit.XXXXXX.xml)
  ( cd "$D" && PYTHONPATH="$D" /venv/bin/python -m pytest -q -p no:cacheprovider --timeout=900 -n 4 --junitxml="$X" tests >/dev/null 2>&1 )
  /venv/bin/python - "$X" <<'PY'
import sys, json, xml.etree.ElementTree as ET
b = set(json.load(open('/root/.vp/BASELINE.json'))['stable_pass'])
passed = set()
for tc in ET.parse(sys.argv[1]).getroot().iter('testcase'):
    if not any(ch.tag in ('failure', 'error', 'skipped') for ch in tc):
        passed.add(tc.get('classname') + '::' + tc.get('name'))
print(f"tests_missing_from_baseline={len(b - passed)}")
PY
  rm -f "$X"
fi
VERIF_NO_CORPUS=${VERIF_NO_CORPUS:-1} MOUETTE_REPO="$D" VERIF_OUT_DIR="$D/out" /venv/bin/python check.py "$P" "$T" $CHECK_ARGS > "$D/log" 2>&1
grep -E "VIOLATION|signature=|exit=|HARNESS" "$D/log" | head -6
if [ -n "$KEEP_REPLAYS" ]; then mkdir -p "$KEEP_REPLAYS"; cp "$D"/out/replays/*.json "$KEEP_REPLAYS"/ 2>/dev/null; fi
rm -rf "$D"
