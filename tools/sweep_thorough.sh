#!/bin/sh
# thorough tier of every property, once, niced (background use through `vp run`); one summary line per property
# SCALE=<x> scales the thorough budgets (default 1 = the registered thorough command)
for p in ${PROPS:-C01 C02 C03 C04 C05 C06 C07 C08 C09 C10 C11 C12 C13 C14 C15 C16 C17 C18 C19 C20}; do
  nice -n 19 ./check.py $p thorough --scale ${SCALE:-1} 2>&1 | grep -E "VIOLATION|sub_check=|HARNESS|thorough:|KNOWN" | cut -c1-500
done
