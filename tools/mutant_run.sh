#!/bin/sh
# usage: tools/mutant_run.sh <patch-file> <CXX> [tier]   -- applies patch to a scratch copy of /repo, runs the check against it
set -e
P=$(readlink -f "$1"); C=$2; T=${3:-quick}
D=$(mktemp -d /tmp/mrepo.XXXXXX)
cp -r /repo/mouette "$D/mouette"
# optional: PRE="fix1.diff fix2.diff" applies pending fixes before the mutant
for q in $PRE; do ( cd "$D" && patch -s -p1 < "$q" ); done   # absolute paths
( cd "$D" && patch -s -p1 < "$P" )
cd "$(dirname "$0")/.."
set +e
MOUETTE_REPO="$D" VERIF_OUT_DIR="$D/out" /venv/bin/python check.py "$C" "$T" | grep -E "VIOLATION|exit=|HARNESS" | head -5
rm -rf "$D"
