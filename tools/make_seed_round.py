#!/usr/bin/env python3
"""Prepares a round of independently seeded changes: one scratch git worktree of /repo per property plus the prompt handed to a
fresh sub-agent (which sees only the property text and its worktree, nothing from /verif).

usage: tools/make_seed_round.py <dir, e.g. /tmp/seed5> <break|benign> [C01 C02 ...]

break  : changes that violate the property, keep the 622 baseline tests passing and need something specific to manifest
benign : changes that alter observable behaviour but keep the property true AS STATED (other valid answers, other orders the statement
         does not pin, other round-off, other exception types) - the registered checks must stay quiet on them (false-alarm probe)
The earlier changes of a property (seeded/*/meta.json + not yet stored <dir>/../seed*/CXX_out/meta*.json) are listed in the prompt.
"""
import sys, os, json, glob, subprocess

ROOT = os.path.dirname(os.path.dirname(os.path.abspath(__file__)))
out, mode = sys.argv[1], sys.argv[2]
props = {}
for l in open(os.path.join(ROOT, "properties.jsonl")):
    d = json.loads(l)
    props[d["id"]] = d
ids = sys.argv[3:] or sorted(props)
os.makedirs(out, exist_ok=True)

EXERCISED = (
    "second calls on the same object, stale cached attributes, mutated arguments, returned objects aliasing internal state, class-level / "
    "module-level shared state and mutable defaults, caches keyed by id() of freed objects or of buffers overwritten in place, uniform "
    "scales from 1e-12 to 1e6 and data far from the origin, integer-typed inputs, narrow numpy dtypes (uint8/int16/float32) for index "
    "rows, ids, weights and coordinates, numpy scalars as arguments, Python ints beyond 2**53, large inputs (element counts, id products "
    "and depths around 2**8, 2**15, 2**16, 2**31), documented options incl. verbose switches and capitalised option strings, the "
    "library-wide switches in mouette/config.py, the state left behind by a call that raised, resolutions at which floating-point "
    "division rounds badly, values within 1e-5 of special ones, container forms (lists / tuples / numpy rows), unused vertices at id 0 / "
    "middle / last, element lists in unusual order, faces sharing two edges or the same vertex set, degenerate faces with a repeated "
    "vertex, chords, disks without interior vertex, pre-existing attributes named like the library's own, copy / deepcopy / pickle of "
    "the objects, two objects of one class used interleaved on one mesh, augmented assignment operators")

DIRECTIONS = (
    "a function, option, branch or return path of the statement that NO earlier change touched (read the list and the code and look for "
    "the gaps - rarely used keyword arguments, the `else` of an `if` that is almost always true, code after an early `return`); empty "
    "and minimal inputs (no element, one element, exactly two) and the LAST element / last iteration of a loop; comparisons at exactly a "
    "threshold (`<` against `<=`, a constant changed in its 7th digit); negative indices that Python wraps silently, booleans or "
    "numpy.bool_ used as indices / counts, None passed for an optional argument, arguments given by keyword instead of position, "
    "generators / iterators / dict views / ranges handed over where a list is usual (they can be consumed only once); an operation "
    "that iterates over a container while another part of the same call grows it; results that depend on recursion depth; for file "
    "formats: CRLF line ends, tabs, comment and blank lines, exponent spellings (1E+05, 1.e5, .5), trailing spaces, a missing final "
    "newline, upper / lower case keywords, very long or non-ASCII strings; accumulations whose error grows with the NUMBER of elements "
    "(single-precision or naive sums, > 1e5 terms); a correct value computed and then stored in / returned from the wrong variable only "
    "on one branch; two changes at different sites that are each harmless alone")


def earlier(pid):
    items = []
    for m in sorted(glob.glob(os.path.join(ROOT, "seeded", pid + "-*", "meta.json"))):
        items.append(json.load(open(m)).get("summary") or "")
    for m in sorted(glob.glob("/tmp/seed*/%s_out/meta*.json" % pid)):
        if "/seedB" in m or os.path.dirname(os.path.dirname(m)) == out.rstrip("/"):
            continue
        try:
            s = json.load(open(m)).get("summary") or ""
        except Exception:
            continue
        if s and s not in items:
            items.append(s)
    return items


for pid in ids:
    p = props[pid]
    wt = os.path.join(out, pid)
    od = os.path.join(out, pid + "_out")
    os.makedirs(od, exist_ok=True)
    if not os.path.isdir(wt):
        subprocess.run(["git", "-C", "/repo", "worktree", "add", "--detach", wt, "HEAD"], check=True, stdout=subprocess.DEVNULL,
                       stderr=subprocess.DEVNULL)
    head = (f"You are helping evaluate a verification effort by playing the adversary. You have a scratch git worktree of a pure-Python "
            f"geometry-processing library (`mouette`) at {wt} (work ONLY inside that directory and {od}; do not read or use anything under "
            f"/verif or /repo or any other /tmp/seed* directory).\n\nHere is a semantic property the library is supposed to satisfy:\n\n"
            f"  Title: {p['title']}\n  Statement: {p['statement']}\n  Quantified over: {p['quantifier']['text']}\n\n")
    if mode == "break":
        task = (
            "Your task: produce 3 DIFFERENT realistic changes to the library source (different mechanisms / different functions) that each BREAK "
            "this property while the library still imports and the existing test suite still passes. Each change should look like a plausible "
            "regression a developer could introduce (an off-by-one, a wrong comparison, a dropped branch, a stale cache, a shared reference, a "
            "wrong default, an \"optimisation\", two sites that each look fine alone...), and it must need something SPECIFIC to manifest - a "
            "particular multi-step sequence of operations, an unusual but legitimate input, a rare geometric/topological configuration, a "
            "particular option combination or order of calls - rather than something ordinary use or the existing tests would expose at once. "
            "Aim for SUBTLE breaks: wrong only on a narrow input class, or only in the second call, or only by a small numerical amount that is "
            "still clearly beyond round-off (>= 1e-6 relative), or only for one option value. Do not make changes that simply raise exceptions "
            "everywhere or break the main path. The change must break the property AS STATED (for an input inside the stated domain), not "
            "merely some behaviour the statement does not mention.\n\n"
            f"This is a LATER round. Earlier adversaries already produced the changes listed below; do NOT repeat them or trivial variants of "
            f"them. The verification being evaluated already exercises: {EXERCISED}. To be useful, your changes should therefore come from "
            f"OTHER directions, for example: {DIRECTIONS}. Each change must still break the property AS STATED.\n")
        demo = ("a small standalone program that exits 0 (prints OK) on the unchanged library and exits 1 (prints what is wrong) with the "
                "change applied")
        metakeys = ('"property": "%s", "summary" (one sentence: what was changed), "needs" (what specific input / sequence / option is needed '
                    'for it to manifest), "files" (list), "tests_passed" (number), "demo_fails_with_change": true, "demo_passes_without": true'
                    % pid)
    else:
        task = (
            "Your task: produce 3 DIFFERENT realistic changes to the library source (different mechanisms / different functions among those "
            "the statement is about) that CHANGE OBSERVABLE BEHAVIOUR of the functions the statement is about but keep the property TRUE AS "
            "STATED for every input in its domain, while the library still imports and the existing test suite still passes. These are the "
            "refactorings a maintainer may legitimately make: returning ANOTHER answer among several the statement allows (another tie-break "
            "between equally short paths / equally near points / equal priorities, another valid spanning tree, another starting element or "
            "direction of a cyclic list where the statement pins neither, another order of an output the statement describes as a set, another "
            "numbering of newly created elements where the statement does not fix it), a different but equally accurate floating-point "
            "evaluation order (results differing by a few ulps), returning numpy integers instead of Python ints or tuples instead of lists "
            "where the statement does not say, a different exception TYPE or message where the statement only says the input is rejected, "
            "keeping an additional cached attribute on the mesh, building lazily what was built eagerly (or the reverse), a different internal "
            "data layout behind the same answers. Make the behavioural difference as LARGE and as frequent as the statement permits - a change "
            "nobody could observe is useless here - but re-read the statement sentence by sentence and make sure none of them becomes false; "
            "when in doubt whether the statement pins something, do not touch it. Do not change documented signatures, and do not make "
            "anything slower by more than a small factor.\n\n"
            "This is a LATER benign round: the property-preserving changes listed first below were already made by an earlier adversary "
            "- do NOT repeat them or close variants; pick OTHER functions / mechanisms of the statement, and be bolder where the statement "
            "allows it: vectorised (numpy) re-implementations whose results differ by round-off or by the order / container / integer type "
            "of the output, correctly invalidated caches that make second calls return the SAME object as the first (or deliberately fresh "
            "objects where the same one came back), different but valid element numberings and starting points, valid outputs chosen by "
            "another rule when several are allowed, additional attributes left on the mesh, stricter or more lenient handling of inputs "
            "OUTSIDE the stated domain (more informative exceptions, accepting what was rejected only where the statement does not say it "
            "is rejected), different results for degenerate inputs the statement excludes. Further directions for this round: STRICTER "
            "argument validation for forms no docstring names (raise TypeError / ValueError for generators, iterators, sets or ranges where "
            "a list is documented, for ids counted from the end, for a single container where unpacked integers are documented, for "
            "numpy.bool_ / 0-1 flags ONLY IF the docstring says bool - think twice there), new OPTIONAL keyword parameters appended at the "
            "END of a signature, different line ends / number formatting / comment lines in files the library WRITES where the statement "
            "pins only what is read back, randomised algorithms that take more (but finitely many) steps, e.g. a few extra pivot retries, "
            "lazily built results rebuilt on every access, results returned as fresh copies instead of internal objects, in-place edits "
            "of internal caches replaced by rebuilt ones.\n\n"
            "Benign changes already made (do not repeat), then breaking changes made earlier (for your information on which code is "
            "involved):\n")
        demo = ("a small standalone program that exercises the changed behaviour, CHECKS THE PROPERTY's relevant sentences on the answers it "
                "gets (so it exits 0 and prints OK on BOTH the unchanged and the changed library) and prints one line `DIFF: ...` describing "
                "an observable difference when run on the changed library (it may detect the changed library by the answer itself)")
        metakeys = ('"property": "%s", "summary" (one sentence: what was changed), "why_still_true" (why every sentence of the statement still '
                    'holds), "observable_difference" (what a caller can see), "files" (list), "tests_passed" (number)' % pid)
    lst = "".join("  - " + s[:260] + "\n" for s in earlier(pid))
    if mode == "benign":
        ben = []
        for m in sorted(glob.glob(os.path.join(ROOT, "seeded_benign", pid + "-b-*", "meta.json"))):
            ben.append(json.load(open(m)).get("summary") or "")
        lst = "".join("  - (benign, done) " + s[:300] + "\n" for s in ben) + lst
    how = (
        f"Also do NOT simply revert one of the recent commits whose message starts with \"fix:\" in `git log`.\n\nHow to work:\n"
        f"- Read the relevant source under {wt}/mouette and the tests under {wt}/tests.\n"
        f"- Run code and tests against the worktree with `cd {wt} && PYTHONPATH={wt} /venv/bin/python ...` (without PYTHONPATH the installed "
        f"copy of the library is imported instead of your worktree!). Full test suite: `cd {wt} && PYTHONPATH={wt} /venv/bin/python -m pytest "
        f"-q -p no:cacheprovider -n 4 tests 2>&1 | tail -5`. On the unchanged worktree 622 tests pass and 7 fail + 6 error (all OSQP-related "
        f"TypeErrors in test_param.py / test_ff_volumes.py / test_levenberg_marquardt.py - these fail before any change, ignore them; do not "
        f"use `-x`; the summary line must still say 622 passed with your change).\n"
        f"- NEVER use `git stash` (the stash is shared between all worktrees of this repository and other agents work in sibling worktrees). "
        f"Switch between states with `git -C {wt} diff > file`, `git -C {wt} checkout -- .` and `git -C {wt} apply file`.\n"
        f"- For each change k = 1..3: start from a clean tree (`git -C {wt} checkout -- .`), make the edit, then save `git -C {wt} diff > "
        f"{od}/change{{k}}.diff`; write `{od}/demo{{k}}.py`, {demo}, when run as `PYTHONPATH={wt} /venv/bin/python {od}/demo{{k}}.py`; "
        f"verify it yourself on both trees; verify the test suite still reports 622 passed with the change; write `{od}/meta{{k}}.json` with "
        f"keys: {metakeys}.\n"
        f"- Finish with a clean worktree (`git -C {wt} checkout -- .`).\n"
        f"- Final message: a short list of the changes you produced (one line each) and anything you could not verify.")
    open(os.path.join(out, pid + "_prompt.txt"), "w").write(head + task + lst + how)
    print(pid, "prompt", len(head + task + lst + how), "chars; earlier changes listed:", len(earlier(pid)))
