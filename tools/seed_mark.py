#!/usr/bin/env python3
"""usage: tools/seed_mark.py <seeded-name> <caught:0|1> <signature|-> <note>   -- updates seeded/<name>/meta.json after a strengthening"""
import sys, json, os
ROOT = os.path.dirname(os.path.dirname(os.path.abspath(__file__)))
n, c, sig, note = sys.argv[1:5]
p = os.path.join(ROOT, "seeded", n, "meta.json")
d = json.load(open(p))
d["caught_by_quick_check"] = bool(int(c)); d["first_signature"] = None if sig == "-" else sig; d["note"] = note
json.dump(d, open(p, "w"), indent=1)
