#!/bin/sh
# usage: tools/store_benign_round.sh <round dir, e.g. /tmp/seedB3> <tag, e.g. b3> <CXX> [k ...]
# false-alarm probe: evaluates every property-preserving change of one property (tools/benign_eval.sh: demo exits 0 on both trees and
# prints DIFF on the patched one, baseline tests pass, registered quick check with the corpus ON must stay quiet) and stores it as
# seeded_benign/CXX-<tag>-k/ with the outcome; replays of an alarm are kept in /tmp/benign_alarms/<name>/ for analysis.
R=$1; TAG=$2; P=$3; shift 3; KS=${*:-1 2 3}
cd "$(dirname "$0")/.."
for k in $KS; do
  SRC="$R/${P}_out"
  [ -f "$SRC/change$k.diff" ] || { echo "no change $k for $P"; continue; }
  NAME=$P-$TAG-$k
  OUT=$(KEEP_REPLAYS=/tmp/benign_alarms/$NAME tools/benign_eval.sh $P "$SRC" $k 2>&1)
  echo "== $NAME"; echo "$OUT" | cut -c1-400
  DEMO_OK=$(echo "$OUT" | grep -c "demo_on_repo=0 demo_on_patched=0 diff_lines=[1-9]")
  TESTS_OK=$(echo "$OUT" | grep -c "tests_missing_from_baseline=0")
  QUIET=$(echo "$OUT" | grep -c "exit=0")
  ALARM=$(echo "$OUT" | grep -c "^VIOLATION")
  if [ "$DEMO_OK" = "1" ] && [ "$TESTS_OK" = "1" ]; then
    mkdir -p "seeded_benign/$NAME"
    cp "$SRC/change$k.diff" "seeded_benign/$NAME/patch.diff"; cp "$SRC/demo$k.py" "seeded_benign/$NAME/demo.py"
    /venv/bin/python - "$SRC/meta$k.json" "seeded_benign/$NAME/meta.json" "$P" "$QUIET" "$ALARM" "$TAG" <<'PY'
import sys, json
src, dst, prop, quiet, alarm, tag = sys.argv[1:7]
m = json.load(open(src))
q = bool(int(quiet)) and not int(alarm)
out = {"property": prop, "kind": f"benign, round {tag} (behaviour changes, property still true as stated)", "summary": m.get("summary"),
       "why_still_true": m.get("why_still_true"), "observable_difference": m.get("observable_difference"), "files": m.get("files"),
       "origin": "independent sub-agent given only the property text and a scratch worktree of /repo",
       "verified": {"demo_exit_on_repo": 0, "demo_exit_with_patch": 0, "demo_prints_DIFF_with_patch": True,
                    "baseline_tests": "622 passed with the change (tools/benign_eval.sh)", "how": "tools/store_benign_round.sh"},
       "quick_check_quiet_at_first_evaluation": q, "quick_check_quiet_now": q,
       "note": "quiet at first evaluation" if q else "ALARM at first evaluation - to be analysed"}
json.dump(out, open(dst, "w"), indent=1)
PY
    echo "stored seeded_benign/$NAME quiet=$QUIET alarm=$ALARM"
  else
    echo "NOT STORED $NAME demo_ok=$DEMO_OK tests_ok=$TESTS_OK"
  fi
done
