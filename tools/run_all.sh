#!/bin/sh
# usage: tools/run_all.sh [tier]   -- runs every registered check once, prints one line per property, exits non-zero if any did
T=${1:-quick}; cd "$(dirname "$0")/.."; rc=0
for p in ${PROPS:-C01 C02 C03 C04 C05 C06 C07 C08 C09 C10 C11 C12 C13 C14 C15 C16 C17 C18 C19 C20}; do
  out=$(/venv/bin/python check.py $p $T 2>&1); r=$?
  echo "$out" | grep -E "VIOLATION|HARNESS" | head -3
  echo "$out" | tail -1
  [ $r -ne 0 ] && rc=1
done
exit $rc
