#!/bin/sh
# usage: tools/benign_recheck.sh <CXX> [tier]  -- runs the registered check against the stored property-preserving changes of that property
# (seeded_benign/CXX-b-k); every one must leave the check quiet (exit 0).
P=$1; T=${2:-quick}
cd "$(dirname "$0")/.."
for D in seeded_benign/$P-b*; do
  S=$(mktemp -d /tmp/bb.XXXXXX); cp "$D/patch.diff" "$S/change1.diff"; cp "$D/demo.py" "$S/demo1.py"
  echo "== $(basename $D)"; SKIP_TESTS=1 tools/benign_eval.sh "$P" "$S" 1 "$T" | tail -2 | cut -c1-300
  rm -rf "$S"
done
