#!/venv/bin/python
"""Writes MANIFEST.json from the table below + properties.jsonl (run by hand after adding a property)."""
import json, os, subprocess
HERE = os.path.dirname(os.path.dirname(os.path.abspath(__file__)))
CLAIMED = json.load(open(os.path.join(HERE, "tools", "claims.json")))
props = [json.loads(l) for l in open(os.path.join(HERE, "properties.jsonl"))]
import sys, importlib
sys.path.insert(0, HERE); sys.path.insert(0, "/repo")
def module_text(pid):
    """the check's own statement of what it generates and compares (RULE) and of what it assumes (ASSUMPTIONS), kept next to the code"""
    try:
        m = importlib.import_module("props." + pid.lower())
        return str(getattr(m, "RULE", "")), [str(a) for a in getattr(m, "ASSUMPTIONS", [])]
    except Exception as e:
        return "", []
checks = []
na = []
for p in props:
    pid = p["id"]
    c = CLAIMED.get(pid)
    if c is None or c.get("not_applicable"):
        na.append({"property_id": pid, "reason": (c or {}).get("reason", "check not built yet in this revision of /verif (planned: see DESIGN.md section 5); nothing is claimed for it")})
        continue
    checks.append({
        "property_id": pid,
        "quick_cmd": f"/venv/bin/python check.py {pid} quick",
        "thorough_cmd": f"/venv/bin/python check.py {pid} thorough",
        "evidence_file": f"evidence/{pid}.json",
        "replay_cmd_template": "/venv/bin/python check.py --replay {path}",
        "engine": "hypothesis-runner",
        "level_claimed": {"category": "exploration", "text": (c["text"] + " || Current generator / oracle statement of the check (props/%s.py RULE): " % pid.lower() + module_text(pid)[0])[:6000],
                          "design_ref": f"DESIGN.md section 5, {pid}"},
        "level_note": (c["note"] + " || Assumptions stated by the check: " + " | ".join(module_text(pid)[1]))[:4000],
        "technique": c["technique"],
    })
hook_commits = []
man = {
    "version": 1,
    "setup_cmd": "sh tools/setup.sh",
    "hooks": {"guard": "MOUETTE_VERIF", "enable": "no source hooks: the checks import /repo's working tree directly (PYTHONPATH=/repo, no build step); check.py sets MOUETTE_VERIF=1 but nothing in /repo reads it",
              "baseline_off_cmd": "cd /repo && /venv/bin/python -m pytest -q -p no:cacheprovider --timeout=900",
              "source_commits": hook_commits, "add_only": True},
    "engines": [{"name": "hypothesis-runner", "path": "vlib/runner.py", "serves_properties": [c["property_id"] for c in checks],
                 "kind_free_text": "Hypothesis 6.168 generated-input search (seeded by VERIF_SEED, sharded over processes) against independent reference models; op-list histories interpreted against a model; JSON replay files"}],
    "checks": checks,
    "not_applicable": na,
    "notes": "All checks: exit 0 held / exit 1 + VIOLATION line / exit 2 harness error. known_findings.json lists open and fixed findings; see DESIGN.md.",
}
json.dump(man, open(os.path.join(HERE, "MANIFEST.json"), "w"), indent=1)
print("claimed", [c["property_id"] for c in checks], "not claimed", [n["property_id"] for n in na])
