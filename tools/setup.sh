#!/bin/sh
# Offline, idempotent: make sure Hypothesis is importable from /venv (nothing else is needed).
set -e
if ! /venv/bin/python -c "import hypothesis" 2>/dev/null; then
  PIP_NO_INDEX=1 /venv/bin/pip install --no-index --find-links /opt/veriftools/wheels hypothesis
fi
/venv/bin/python -c "import hypothesis, numpy, scipy; print('hypothesis', hypothesis.__version__)"
