#!/venv/bin/python
"""Regenerates the machine-written tables of DESIGN.md (between <!-- BEGIN:x --> / <!-- END:x --> markers) from
known_findings.json, seeded/*/meta.json and mutants/*/."""
import json, os, glob, re
HERE = os.path.dirname(os.path.dirname(os.path.abspath(__file__)))

def findings_table():
    d = json.load(open(os.path.join(HERE, "known_findings.json")))
    rows = ["| id | property | status | commit | what failed |", "|---|---|---|---|---|"]
    for f in sorted(d["findings"], key=lambda f: (f["property"], f["id"])):
        desc = f["description"]
        desc = re.sub(r"^fixed: property=\S+ \S+ ", "", desc)
        rows.append(f"| {f['id']} | {f['property']} | {f['status']} | {f.get('commit', '-')} | {desc} |")
    n_fixed = sum(1 for f in d["findings"] if f["status"] == "fixed"); n_open = sum(1 for f in d["findings"] if f["status"] == "open")
    return f"{n_fixed} defects repaired by a `fix:` commit in /repo, {n_open} recorded as open known findings.\n\n" + "\n".join(rows)

def seeded_table():
    rows = ["| seeded change | property | what was changed | needs | caught by quick check | first signature | note |", "|---|---|---|---|---|---|---|"]
    n = c = 0
    for p in sorted(glob.glob(os.path.join(HERE, "seeded", "*", "meta.json"))):
        m = json.load(open(p)); name = os.path.basename(os.path.dirname(p))
        n += 1; c += bool(m.get("caught_by_quick_check"))
        cut = lambda s, k: (s or "").replace("|", "/").replace("\n", " ")[:k]
        rows.append(f"| {name} | {m['property']} | {cut(m.get('summary'), 220)} | {cut(m.get('needs'), 200)} | {'n/a (stale)' if m.get('stale') else 'yes' if m.get('caught_by_quick_check') else 'NO'} | {m.get('first_signature') or '-'} | {cut(m.get('note'), 260)} |")
    # per-round statistics (round 1: CXX-k, later rounds: CXX-rN-k); "initially MISSED" is recorded in the note
    stats = {}
    for p in sorted(glob.glob(os.path.join(HERE, "seeded", "*", "meta.json"))):
        m = json.load(open(p)); name = os.path.basename(os.path.dirname(p))
        r = name.split("-")[1] if "-r" in name else "r1"
        st = stats.setdefault(r, [0, 0])
        st[0] += 1; st[1] += ("MISSED" in (m.get("note") or ""))
    per_round = "; ".join(f"round {r[1:]}: {a} changes, {b} missed when first evaluated" for r, (a, b) in sorted(stats.items()))
    return (f"{n} independently seeded changes kept (each verified: demo passes on /repo, fails with the patch, baseline tests still pass); "
            f"{c} are caught by the registered quick check now (search alone, saved-input corpus off). {per_round}. Every miss led to a strengthening of the check concerned "
            f"(column note) and is caught since, except the ones marked NO: changes judged outside the stated domain (the note says why). "
            f"Changes marked n/a (stale) no longer apply to / no longer break the current /repo because a later fix: commit touched the same lines.\n\n" + "\n".join(rows))

def benign_table():
    rows = ["| benign change | property | what was changed (the property still holds) | quiet at first evaluation | note |", "|---|---|---|---|---|"]
    n = q = 0
    for p in sorted(glob.glob(os.path.join(HERE, "seeded_benign", "*", "meta.json"))):
        m = json.load(open(p)); name = os.path.basename(os.path.dirname(p))
        n += 1; q += bool(m.get("quick_check_quiet_at_first_evaluation"))
        cut = lambda s, k: (s or "").replace("|", "/").replace("\n", " ")[:k]
        rows.append(f"| {name} | {m['property']} | {cut(m.get('summary'), 240)} | {'yes' if m.get('quick_check_quiet_at_first_evaluation') else 'NO (false alarm, corrected)'} | {cut(m.get('note'), 200)} |")
    return f"{n} behaviour-changing, property-preserving changes kept; {q} left the registered quick check quiet at first evaluation, all do now.\n\n" + "\n".join(rows)

def mutants_table():
    rows = ["| property | mutant patches under mutants/<id>/ |", "|---|---|"]
    for d in sorted(glob.glob(os.path.join(HERE, "mutants", "C*"))):
        fs = sorted(os.path.basename(f)[:-5] for f in glob.glob(os.path.join(d, "*.diff")))
        rows.append(f"| {os.path.basename(d)} | {len(fs)}: {', '.join(fs)} |")
    return "\n".join(rows)

def main():
    p = os.path.join(HERE, "DESIGN.md")
    s = open(p).read()
    for key, fn in (("findings", findings_table), ("seeded", seeded_table), ("mutants", mutants_table), ("benign", benign_table)):
        b, e = f"<!-- BEGIN:{key} -->", f"<!-- END:{key} -->"
        if b in s and e in s:
            s = s[:s.index(b) + len(b)] + "\n" + fn() + "\n" + s[s.index(e):]
    open(p, "w").write(s)

main()
