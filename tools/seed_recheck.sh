#!/bin/sh
# usage: tools/seed_recheck.sh <CXX> [tier]  -- runs the registered check against every stored seeded change of that property
# (seeded/CXX-*/patch.diff); prints one line per change: caught (VIOLATION) / MISSED / patch no longer applies
P=$1; T=${2:-quick}
cd "$(dirname "$0")/.."
for D in seeded/$P-*; do
  [ -f "$D/patch.diff" ] || continue
  S=$(mktemp -d /tmp/sr.XXXXXX); cp "$D/patch.diff" "$S/change1.diff"; cp "$D/demo.py" "$S/demo1.py"
  O=$(KEEP_REPLAYS="$S/rep" SKIP_TESTS=1 tools/seed_eval.sh "$P" "$S" 1 "$T" 2>&1)
  # side effect: the shrunk failing cases join the saved-input corpus regress/<P>/ (only those that hold on /repo)
  [ -d "$S/rep" ] && [ "$NO_INGEST" != "1" ] && /venv/bin/python tools/harvest_corpus.py --ingest "$P" "seed-$(basename $D)" "$S/rep" >/dev/null 2>&1
  if echo "$O" | grep -q "PATCH-FAILED"; then R="patch-no-longer-applies"
  elif echo "$O" | grep -q "^VIOLATION"; then R="caught $(echo "$O" | grep -o 'signature=[^ ]*' | head -1)"
  else R="MISSED ($(echo "$O" | grep -o 'demo_on_patched=[0-9]'))"; fi
  echo "$(basename $D): $R"
  rm -rf "$S"
done
