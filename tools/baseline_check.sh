#!/bin/sh
# Runs the repository's test suite (guard off) and compares the set of passing tests with BASELINE.json stable_pass.
R=${1:-/repo}
X=$(mktemp /tmp/junit.XXXXXX.xml)
( cd "$R" && env -u MOUETTE_VERIF /venv/bin/python -m pytest -q -p no:cacheprovider --timeout=900 -n 8 --junitxml="$X" >/dev/null 2>&1 )
/venv/bin/python - "$X" <<'PY'
import sys, json, xml.etree.ElementTree as ET
b = set(json.load(open('/root/.vp/BASELINE.json'))['stable_pass'])
passed = set()
for tc in ET.parse(sys.argv[1]).getroot().iter('testcase'):
    if not any(ch.tag in ('failure', 'error', 'skipped') for ch in tc):
        passed.add(tc.get('classname') + '::' + tc.get('name'))
missing = sorted(b - passed)
print(f"baseline stable_pass={len(b)} passed_now={len(passed)} missing_from_baseline={len(missing)}")
for m in missing[:20]: print("  MISSING", m)
sys.exit(1 if missing else 0)
PY
rc=$?
rm -f "$X"
exit $rc
