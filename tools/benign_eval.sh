#!/bin/sh
# usage: tools/benign_eval.sh <CXX> <dir-with-changeK.diff/demoK.py/metaK.json> <K> [tier]
# False-alarm probe: a change that alters behaviour but keeps the property true as stated. The demo must exit 0 on both trees (and print
# DIFF: on the patched one), the baseline tests must still pass, and the registered check must stay quiet (exit 0, no VIOLATION).
P=$1; SRC=$2; K=$3; T=${4:-quick}
D=$(mktemp -d /tmp/beval.XXXXXX)
cp -r /repo/mouette "$D/mouette"; cp -r /repo/tests "$D/tests"
( cd "$D" && patch -s -p1 < "$SRC/change$K.diff" ) || { echo "PATCH-FAILED"; rm -rf "$D"; exit 3; }
cd "$(dirname "$0")/.."
PYTHONPATH=/repo /venv/bin/python -W ignore "$SRC/demo$K.py" >/dev/null 2>&1; a=$?
PYTHONPATH="$D" /venv/bin/python -W ignore "$SRC/demo$K.py" > "$D/demo.out" 2>&1; b=$?
echo "demo_on_repo=$a demo_on_patched=$b diff_lines=$(grep -c '^DIFF' "$D/demo.out")"
if [ "$SKIP_TESTS" != "1" ]; then
  X=$(mktemp /tmp/junit.XXXXXX.xml)
  ( cd "$D" && PYTHONPATH="$D" /venv/bin/python -m pytest -q -p no:cacheprovider --timeout=900 -n 4 --junitxml="$X" tests >/dev/null 2>&1 )
  /venv/bin/python - "$X" <<'PY'
import sys, json, xml.etree.ElementTree as ET
b = set(json.load(open('/root/.vp/BASELINE.json'))['stable_pass'])
passed = set()
for tc in ET.parse(sys.argv[1]).getroot().iter('testcase'):
    if not any(ch.tag in ('failure', 'error', 'skipped') for ch in tc):
        passed.add(tc.get('classname') + '::' + tc.get('name'))
print(f"tests_missing_from_baseline={len(b - passed)}")
PY
  rm -f "$X"
fi
MOUETTE_REPO="$D" VERIF_OUT_DIR="$D/out" /venv/bin/python check.py "$P" "$T" $CHECK_ARGS > "$D/log" 2>&1
grep -E "VIOLATION|signature=|exit=|HARNESS" "$D/log" | cut -c1-600 | head -8
if [ -n "$KEEP_REPLAYS" ]; then mkdir -p "$KEEP_REPLAYS"; cp "$D"/out/replays/*.json "$KEEP_REPLAYS"/ 2>/dev/null; fi
rm -rf "$D"
