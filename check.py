#!/venv/bin/python
"""Single entry point.

    check.py CXX quick|thorough [--only sub1,sub2] [--shards N] [--scale X]
    check.py --replay replays/<file>.json
    check.py CXX --collect [quick|thorough] [--only ...]      (development aid)

exit 0: property held on everything explored; exit 1 + "VIOLATION property=<id> replay=<path>";
exit 2: harness error (never a VIOLATION line).
"""
import os, sys

HERE = os.path.dirname(os.path.abspath(__file__))

if os.environ.get("PYTHONHASHSEED") != "0" or os.environ.get("PYTHONDONTWRITEBYTECODE") != "1":
    env = dict(os.environ, PYTHONHASHSEED="0", PYTHONDONTWRITEBYTECODE="1", MOUETTE_VERIF="1",
               OMP_NUM_THREADS="1", OPENBLAS_NUM_THREADS="1", MKL_NUM_THREADS="1", NUMBA_NUM_THREADS="1")
    os.execve(sys.executable, [sys.executable, "-W", "ignore", os.path.abspath(__file__)] + sys.argv[1:], env)

os.chdir(HERE)
sys.path.insert(0, HERE)


def main(argv):
    from vlib import runner
    if not argv:
        print(__doc__)
        return 2
    if argv[0] == "--replay":
        return runner.main_replay(argv[1])
    prop = argv[0].upper()
    rest = argv[1:]
    only = None
    shards = None
    scale = 1.0
    collect = False
    tier = os.environ.get("VERIF_TIER", "quick")
    i = 0
    while i < len(rest):
        a = rest[i]
        if a in ("quick", "thorough"):
            tier = a
        elif a == "--only":
            only = set(rest[i + 1].split(",")); i += 1
        elif a == "--shards":
            shards = int(rest[i + 1]); i += 1
        elif a == "--scale":
            scale = float(rest[i + 1]); i += 1
        elif a == "--collect":
            collect = True
        else:
            print("unknown argument", a)
            return 2
        i += 1
    if collect:
        return runner.main_collect(prop, tier, only)
    return runner.main_check(prop, tier, only, shards, scale)


if __name__ == "__main__":
    try:
        rc = main(sys.argv[1:])
    except SystemExit:
        raise
    except BaseException:
        import traceback
        print("HARNESS ERROR:")
        traceback.print_exc()
        rc = 2
    sys.stdout.flush()
    sys.exit(rc)
